"""Python lists as abstract values (for fields whose value is sometimes a list
and sometimes something else, e.g. MapResult._value: the result list, then an
exception record).  With `world.abstract_seqs = True` a list stored in a field of
shape ValS is a value of sort Val with

    seq_len(v): Int >= 0,   seq_at(v, k): Val   (0 <= k < seq_len(v))

    [x] * n          -> seq_repeat: length max(n, 0), every element x
    v[a:b] = r       -> splice (Python slice assignment with step 1): a new
                        value; the statement stores it back into the attribute
                        or name it was read from (the list object itself is not
                        modelled, so aliases of the list are not tracked)
    v[k]             -> seq_at(v, k)

What is assumed of Python: slice assignment replaces the clamped range [a, b)
by the elements of r.
"""
import z3

from .shapes import SV, ValS, IntS, Val, fresh_name

seq_len = z3.Function('seq_len', Val, z3.IntSort())
seq_at = z3.Function('seq_at', Val, z3.IntSort(), Val)


def clamp(i, n):
    """Python's slice bound normalisation for a non-negative-length sequence"""
    i = z3.If(i < 0, i + n, i)
    return z3.If(i < 0, 0, z3.If(i > n, n, i))


def repeat(path, elem, n):
    v = z3.Const(fresh_name('rep'), Val)
    k = z3.Int(fresh_name('k'))
    path.assume(seq_len(v) == z3.If(n > 0, n, 0))
    path.assume(z3.ForAll([k], z3.Implies(z3.And(k >= 0, k < n), seq_at(v, k) == elem), patterns=[seq_at(v, k)]))
    return SV(ValS, v)


def splice(path, old, lo, hi, src):
    """old[lo:hi] = src"""
    n = seq_len(old)
    path.assume(z3.And(n >= 0, seq_len(src) >= 0))
    a = clamp(lo, n) if lo is not None else z3.IntVal(0)
    b = clamp(hi, n) if hi is not None else n
    b = z3.If(b < a, a, b)
    m = seq_len(src)
    v = z3.Const(fresh_name('spliced'), Val)
    k = z3.Int(fresh_name('k'))
    path.assume(seq_len(v) == n - (b - a) + m)
    path.assume(z3.ForAll([k], z3.Implies(z3.And(k >= 0, k < a), seq_at(v, k) == seq_at(old, k)), patterns=[seq_at(v, k)]))
    path.assume(z3.ForAll([k], z3.Implies(z3.And(k >= a, k < a + m), seq_at(v, k) == seq_at(src, k - a)),
                          patterns=[seq_at(v, k)]))
    path.assume(z3.ForAll([k], z3.Implies(z3.And(k >= a + m, k < n - (b - a) + m),
                                          seq_at(v, k) == seq_at(old, k - m + (b - a))), patterns=[seq_at(v, k)]))
    return SV(ValS, v)
