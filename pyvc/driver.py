"""./check <Cxx> <quick|thorough> | --replay <file>

Exit codes: 0 all obligations discharged (known findings listed);
1 a refuted obligation that is not a listed finding (VIOLATION line);
2 undecided (unknown / unsupported construct / missing function);
3 checker error (vacuity guard, baseline shrinkage, solver disagreement,
  internal error)."""
import importlib.util
import json
import multiprocessing
import os
import re
import subprocess
import sys
import time
import traceback

HERE = os.path.dirname(os.path.dirname(os.path.abspath(__file__)))
sys.path.insert(0, HERE)
sys.path.insert(0, os.path.join(HERE, 'contracts'))

from pyvc import smt                                   # noqa: E402
from pyvc.core import World                            # noqa: E402
from pyvc.source import Repo, REPO                     # noqa: E402
from pyvc.contracts import (Contract, Lemma, verify_function, verify_lemma)  # noqa: E402

REPLAY_PY = os.environ.get('PYVC_REPLAY_PYTHON', '/venv/bin/python')


def load_contracts(prop):
    path = os.path.join(HERE, 'contracts', prop + '.py')
    spec = importlib.util.spec_from_file_location('contracts_' + prop, path)
    mod = importlib.util.module_from_spec(spec)
    spec.loader.exec_module(mod)
    return mod


def all_finding_obligations():
    out = []
    path = os.path.join(HERE, 'known_findings.txt')
    if os.path.exists(path):
        for raw in open(path):
            m = re.match(r'finding: property=\S+ id=\S+ obligation=(\S+) ', raw.strip())
            if m:
                out.append(m.group(1))
    return out


def reproduces_only_a_recorded_finding(qn, path, finding_lines):
    """a bounded search on a function that has a recorded finding reproduces that finding (it is a defect of the real
    code); unless the replayer says it left the finding's scenario out, such a reproduction is not a new violation"""
    base = qn.split('@')[0]
    known_f = [f for f in finding_lines if f['obligation'].split('/')[0] in (qn, base) or
               f['obligation'].split('/')[0].split('@')[0] == base and '@' not in qn]
    if not known_f:
        return False
    try:
        return 'known findings skipped' not in json.load(open(path)).get('replay_output', '')
    except Exception:
        return True


def load_findings(prop):
    """known_findings.txt ->  {'qualname/obligation': [(id, witness)]}, list of lines"""
    out, lines, fixed = {}, [], []
    path = os.path.join(HERE, 'known_findings.txt')
    if not os.path.exists(path):
        return out, lines, fixed
    for raw in open(path):
        line = raw.strip()
        if not line or line.startswith('#'):
            continue
        if line.startswith('fixed:'):
            if 'property=%s ' % prop in line:
                fixed.append(line)
            continue
        m = re.match(r'finding: property=(\S+) id=(\S+) obligation=(\S+) witness="(.*?)" what="(.*)"$', line)
        if not m:
            raise SystemExit('known_findings.txt: cannot parse: ' + line)
        if m.group(1) != prop:
            continue
        out.setdefault(m.group(3), []).append((m.group(2), m.group(4)))
        lines.append({'id': m.group(2), 'obligation': m.group(3), 'what': m.group(5)})
    return out, lines, fixed


_G = {}


def _build_world(prop, variant=None):
    mod = load_contracts(prop)
    w = World(Repo())
    items = mod.build(w, variant) if variant is not None else mod.build(w)
    if variant is not None:
        # handle-kind variants: a contract may restrict itself to some of them
        items = [it for it in items if getattr(it, 'variants', None) is None or variant in it.variants]
    for it in items:
        if isinstance(it, Contract):
            if it.qualname in w.contracts and w.contracts[it.qualname] is not it:
                pass
            w.contracts.setdefault(it.qualname, it)
    w.findings, _, _ = load_findings(prop)
    w.variant = variant
    return mod, w, items


_WORLDS = {}


def _work(arg):
    prop, variant, idx, timeout_ms = arg[:4]
    prefix = arg[4] if len(arg) > 4 else None
    smt.QUICK_TIMEOUT_MS = timeout_ms
    smt.reset_stats()
    try:
        if (prop, variant) not in _WORLDS:
            _WORLDS[(prop, variant)] = _build_world(prop, variant)
        mod, w, items = _WORLDS[(prop, variant)]
        it = items[idx]
        if isinstance(it, Lemma):
            res = verify_lemma(w, it)
        else:
            res = verify_function(w, it, only_prefix=prefix)
        out = {
            'task': (variant, idx), 'new_prefixes': getattr(res, 'new_prefixes', []),
            'qualname': res.qualname + ('@' + variant if variant else ''), 'paths': res.paths, 'infeasible': res.infeasible,
            'error': res.error, 'span': res.span, 'file': res.file, 'sha256': res.sha256,
            'seconds': res.seconds, 'exits': res.exits,
            'dropped': sorted(res.dropped), 'calls': sorted(res.calls),
            'obligations': [{'name': o.name, 'verdict': o.verdict, 'backend': o.backend,
                             'path': ''.join('T' if b else 'F' for b in o.path),
                             'model': o.model, 'detail': o.detail, 'seconds': o.seconds,
                             'known': o.known}
                            for o in res.obligations],
            'live_paths': getattr(res, 'live_paths', 0),
            'stats': dict(smt.STATS),
            'variant': getattr(it, 'variant_name', None),
        }
        dead = []
        for m in w.repo.modules.values():
            dead += m.dead
            dead += ['(not dead: exec template) ' + e for e in getattr(m, 'expanded', [])]
        out['dead_branches'] = dead
        return out
    except Exception:
        return {'qualname': 'item %d' % idx, 'paths': 0, 'infeasible': 0,
                'error': ('internal', traceback.format_exc()), 'obligations': [],
                'stats': dict(smt.STATS), 'dropped': [], 'calls': [], 'seconds': 0,
                'span': None, 'file': None, 'sha256': None, 'exits': {}, 'dead_branches': []}


def run_tasks(tasks, jobs):
    """one task per *path*: a worker explores one decision prefix of one function and reports the prefixes that
    fork from it; the results of a function's paths are merged"""
    merged, order = {}, []
    with multiprocessing.get_context('fork').Pool(jobs) as pool:
        inflight = []
        for t in tasks:
            order.append((t[1], t[2]))
            inflight.append(pool.apply_async(_work, (tuple(t) + ([],),)))
        while inflight:
            still = []
            progressed = False
            for a in inflight:
                if not a.ready():
                    still.append(a)
                    continue
                progressed = True
                r = a.get()
                key = r.get('task')
                if key is None:            # internal error before the task was identified
                    merged.setdefault(('error', len(merged)), r)
                    continue
                for pfx in r.pop('new_prefixes', []):
                    m = merged.get(key)
                    if m is not None and m['paths'] >= 4000:
                        m['error'] = m['error'] or ('unsupported', 'more than 4000 paths')
                        continue
                    t = [x for x in tasks if (x[1], x[2]) == key][0]
                    still.append(pool.apply_async(_work, (tuple(t) + (pfx,),)))
                if key not in merged:
                    merged[key] = r
                else:
                    m = merged[key]
                    m['paths'] += r['paths']
                    m['infeasible'] += r['infeasible']
                    m['error'] = m['error'] or r['error']
                    m['seconds'] += r['seconds']
                    for k, v in r['exits'].items():
                        m['exits'][k] = m['exits'].get(k, 0) + v
                    m['dropped'] = sorted(set(m['dropped']) | set(r['dropped']))
                    m['calls'] = sorted(set(m['calls']) | set(r['calls']))
                    m['obligations'] += r['obligations']
                    m['live_paths'] = m.get('live_paths', 0) + r.get('live_paths', 0)
                    for k, v in r['stats'].items():
                        m['stats'][k] = m['stats'].get(k, 0) + v
                    m['dead_branches'] = sorted(set(m.get('dead_branches', [])) | set(r.get('dead_branches', [])))
            inflight = still
            if not progressed:
                time.sleep(0.01)
    out = [merged[k] for k in order if k in merged]
    out += [v for k, v in merged.items() if k not in order]
    return out


def sources_hash():
    """sha256 over the source files of the package under verification"""
    import hashlib
    h = hashlib.sha256()
    root = os.path.join(REPO, 'billiard')
    for fn in sorted(os.listdir(root)):
        if fn.endswith('.py'):
            with open(os.path.join(root, fn), 'rb') as fh:
                h.update(fn.encode() + b'\0' + fh.read())
    return h.hexdigest()


def sanitize(s):
    return re.sub(r'[^A-Za-z0-9_.-]+', '_', s)[:150]


def replay(prop, mod, func, ob, replay_dir, search=False):
    """write the replay file; run the function's concretiser if there is one.
    -> (path, reproduced: True/False/None)"""
    os.makedirs(replay_dir, exist_ok=True)
    path = os.path.join(replay_dir, sanitize(func['qualname'] + '__' + ob['name'] + '__' + ob['path']) + '.json')
    replayers = getattr(mod, 'REPLAYERS', {})
    rp = replayers.get(func['qualname'].split('@')[0], 'replayers/generic.py' if '<locals>' not in func['qualname'] and not func['qualname'].startswith('lemma') else None)
    data = {
        'property': prop, 'function': func['qualname'], 'obligation': ob['name'],
        'path_decisions': ob['path'], 'solver': ob['backend'], 'model': ob['model'],
        'detail': ob['detail'], 'source_file': func['file'], 'source_sha256': func['sha256'],
        'source_span': func['span'], 'repo': REPO, 'replayer': rp,
        'rerun': './check %s --replay %s' % (prop, path),
        # obligations of this function that are recorded findings: a replayer that runs scenario groups may skip theirs
        # (and says so: "known findings skipped"), so that the cross-check still reports anything else it finds
        # (findings recorded under any property: a defect of this function is known whichever check runs the replayer)
        'known_finding_obligations': [o for o in all_finding_obligations()
                                      if o.split('/')[0].split('@')[0] == func['qualname'].split('@')[0]],
    }
    for it in _G.get('items', []):
        if isinstance(it, Contract) and it.qualname == func['qualname'].split('@')[0]:
            data['contract'] = {'requires': it.requires, 'ensures': it.ensures, 'raises': it.raises,
                                'lets': it.lets, 'modifies': it.modifies}
    reproduced, output = None, ''
    if rp is not None and (ob['model'] or search):
        with open(path, 'w') as fh:
            json.dump(data, fh, indent=1, default=str)
        try:
            env = dict(os.environ)
            env['PYTHONPATH'] = REPO + os.pathsep + env.get('PYTHONPATH', '')
            env.pop('PYVC_SEARCH', None)
            if search:
                env['PYVC_SEARCH'] = '1'
            r = subprocess.run([REPLAY_PY, os.path.join(HERE, rp), path], capture_output=True,
                               text=True, timeout=120, env=env, cwd=HERE)
            output = (r.stdout + r.stderr)[-4000:]
            reproduced = (r.returncode == 1)
            if r.returncode not in (0, 1):
                reproduced = None
        except subprocess.TimeoutExpired:
            output = 'replay timed out'
    if reproduced and search:
        try:
            data.update({k: v for k, v in json.load(open(path)).items() if k not in data})
        except Exception:
            pass
    data['replay_reproduced_on_real_code'] = reproduced
    data['replay_mode'] = 'bounded search for a failing input' if search else 'counter-model'
    data['replay_output'] = output
    with open(path, 'w') as fh:
        json.dump(data, fh, indent=1, default=str)
    return path, reproduced


def main(argv):
    if len(argv) >= 3 and argv[1] == '--replay' or (len(argv) >= 4 and argv[2] == '--replay'):
        f = argv[-1]
        data = json.load(open(f))
        rp = data.get('replayer')
        if not rp:
            print('no concretiser for %s; obligation %s was refuted by %s; model: %s' % (
                data['function'], data['obligation'], data['solver'], json.dumps(data['model'])))
            return 1
        env = dict(os.environ)
        env['PYTHONPATH'] = REPO + os.pathsep + env.get('PYTHONPATH', '')
        return subprocess.call([REPLAY_PY, os.path.join(HERE, rp), f], env=env, cwd=HERE)
    prop = argv[1]
    tier = argv[2] if len(argv) > 2 else os.environ.get('VERIF_TIER', 'quick')
    seed = int(os.environ.get('VERIF_SEED', '0') or 0)
    t0 = time.time()
    timeout_ms = int(os.environ.get('PYVC_TIMEOUT_MS', '0')) or (10000 if tier == 'quick' else 60000)
    os.makedirs(os.path.join(HERE, '.scratch'), exist_ok=True)
    os.environ['PYVC_SCRATCH'] = os.path.join(HERE, '.scratch')
    mod = load_contracts(prop)
    variants = getattr(mod, 'VARIANTS', [None])
    _, finding_lines, fixed_lines = load_findings(prop)
    _G['finding_lines'] = finding_lines
    only = os.environ.get('PYVC_ONLY')
    tasks, all_items = [], []
    for v in variants:
        _m, w, items = _build_world(prop, v)
        all_items += items
        for i, it in enumerate(items):
            nm = getattr(it, 'qualname', getattr(it, 'name', '')) + ('@' + v if v else '')
            if not only or only in nm:
                tasks.append((prop, v, i, timeout_ms))
    _G['items'] = all_items
    n = len(tasks)
    jobs = int(os.environ.get('PYVC_JOBS', '16'))
    results = run_tasks(tasks, jobs)

    # ---- aggregate
    total = proved = refuted = unknown = known = 0
    stats = {}
    funcs, errors, violations, known_hits = [], [], [], {}
    unknowns = []
    known_first = {}
    names = set()
    dead, dropped, trusted_calls = set(), set(), set()
    samples = []
    for r in results:
        for k, v in r['stats'].items():
            stats[k] = stats.get(k, 0) + v
        dead |= set(r.get('dead_branches', []))
        dropped |= set(r['dropped'])
        trusted_calls |= set(r['calls'])
        if r['error']:
            errors.append((r['qualname'], r['error']))
        fn_ob = {'function': r['qualname'], 'file': r['file'], 'lines': r['span'], 'sha256': r['sha256'],
                 'paths': r['paths'], 'obligations': len(r['obligations']), 'seconds': round(r['seconds'], 3),
                 'exits': r['exits']}
        funcs.append(fn_ob)
        if not r['obligations'] and not r['error']:
            errors.append((r['qualname'], ('vacuity', 'zero obligations generated')))
        if r.get('live_paths', 1) == 0 and not r['error'] and not r['qualname'].startswith('lemma:'):
            errors.append((r['qualname'], ('vacuity', 'no path ends with a satisfiable path condition (contradictory contract?)')))
        for o in r['obligations']:
            total += 1
            full = r['qualname'] + '/' + o['name']
            names.add(full)
            if o['verdict'] == 'proved':
                proved += 1
            elif o['verdict'] == 'known':
                known += 1
                known_hits.setdefault(o['known'], []).append(full)
                known_first.setdefault(o['known'], (r, o))
            elif o['verdict'] == 'refuted':
                refuted += 1
                violations.append((r, o))
            else:
                unknown += 1
                unknowns.append((r, o))
                errors.append((r['qualname'], ('unknown', '%s: solver returned unknown (%s)' % (o['name'], o['backend']))))
        for o in r['obligations'][:2]:
            samples.append({'obligation': r['qualname'] + '/' + o['name'], 'verdict': o['verdict'],
                            'backend': o['backend'], 'seconds': round(o['seconds'], 4), 'path': o['path']})

    if os.environ.get('PYVC_VERBOSE'):
        for r in results:
            print('--', r['qualname'], 'paths', r['paths'], 'obligations', len(r['obligations']), '%.1fs' % r['seconds'], r['exits'], r['error'] or '')
            shown = {}
            for o in r['obligations']:
                if o['verdict'] != 'proved' or os.environ.get('PYVC_VERBOSE') == '2':
                    key = (o['verdict'], o['name'])
                    shown.setdefault(key, []).append(o)
            for (verdict, name), obs in shown.items():
                o = obs[0]
                print('     %-9s %-55s x%d path %s %.2fs %s %s' % (verdict, name, len(obs), o['path'], o['seconds'], o['detail'], (json.dumps(o['model'], default=str) if o['model'] else '')[:int(os.environ.get('PYVC_MODEL_CHARS', '300'))]))
    # ---- Lean lemmas mirrored as SMT assumptions: re-checked on every run
    lean_results = []
    for lf in getattr(mod, 'LEAN', []) if not only else []:
        t1 = time.time()
        try:
            pr = subprocess.run(['lean', os.path.join(HERE, lf)], capture_output=True, text=True, timeout=900)
            ok = pr.returncode == 0 and 'error' not in pr.stdout and 'sorry' not in pr.stdout + pr.stderr
            detail = (pr.stdout + pr.stderr)[-400:]
        except Exception as e_:       # lean missing / timeout
            ok, detail = False, repr(e_)
        src_l = open(os.path.join(HERE, lf)).read()
        ntheorems = len(re.findall(r'^theorem ', src_l, flags=re.M))
        if re.search(r'\b(sorry|admit|axiom)\b', re.sub(r'/-.*?-/', '', src_l, flags=re.S)):
            ok, detail = False, 'sorry/axiom in ' + lf
        lean_results.append({'file': lf, 'theorems': ntheorems, 'accepted': ok, 'seconds': round(time.time() - t1, 2)})
        if not ok:
            errors.append((lf, ('internal', 'lean did not accept %s: %s' % (lf, detail))))
    # ---- baseline (vacuity / shrinkage guard)
    base_path = os.path.join(HERE, 'baselines', prop + '.json')
    shrink = []
    counts = {}
    for r in results:
        for o in r['obligations']:
            k = r['qualname'] + '/' + o['name']
            counts[k] = counts.get(k, 0) + 1
    src_hash = sources_hash()
    if os.environ.get('PYVC_WRITE_BASELINE'):
        os.makedirs(os.path.dirname(base_path), exist_ok=True)
        json.dump({'names': sorted(names), 'counts': counts, 'sources_sha256': src_hash},
                  open(base_path, 'w'), indent=0, sort_keys=True)
    if only:
        pass
    elif os.path.exists(base_path):
        bj = json.load(open(base_path))
        if isinstance(bj, list):
            bj = {'names': bj}
        base = set(bj['names'])
        if bj.get('sources_sha256') == src_hash and bj.get('counts') and not any(
                e[1][0] in ('unsupported', 'missing', 'contract', 'internal') for e in errors):
            # same source text as when the baseline was taken: the run must
            # generate exactly the same obligations (guards against paths being
            # lost silently, e.g. by an inconsistent assumption in the engine)
            diff = [k for k in set(counts) | set(bj['counts']) if counts.get(k, 0) != bj['counts'].get(k, 0)]
            if diff:
                errors.append((prop, ('vacuity', 'same sources as the baseline but %d obligation counts differ, e.g. %s' % (
                    len(diff), [(k, bj['counts'].get(k, 0), counts.get(k, 0)) for k in sorted(diff)[:3]]))))
        hard_err = any(e[1][0] in ('unsupported', 'missing', 'contract', 'internal') for e in errors)
        if not hard_err:
            # names that vanish because a path became infeasible after a code
            # change are legitimate only for path-specific exits; the guard is
            # about contracts silently generating nothing
            shrink = sorted(x for x in base - names
                            if not re.search(r'/(noraise|raises|call:|loop\d+\.frame|frame\.)', x))
    else:
        errors.append((prop, ('vacuity', 'no baseline of obligation names committed (baselines/%s.json)' % prop)))

    # ---- replay refutations
    replay_dir = os.path.join(HERE, 'replays', prop)
    if os.path.isdir(replay_dir) and not only:
        for _f in os.listdir(replay_dir):
            os.unlink(os.path.join(replay_dir, _f))
    viol_lines = []
    seen = set()
    # An obligation taken from the property (post / raises / noraise / callee
    # precondition) that is refuted is a violation.  If *only* auxiliary proof
    # steps fail in a function (loop invariant entry/preservation, frames), the
    # counter-model is a loop-head state, not an input: the function's
    # concretiser then searches (bounded) for a failing input on the real code;
    # without one the verdict is UNDECIDED, not a violation.
    def is_aux(name):
        # (a function-level frame.* obligation is part of the contract: its counter-model is an input)
        return bool(re.match(r'(loop\d+\.|yield\.)', name))
    by_func = {}
    for r, o in violations:
        by_func.setdefault(r['qualname'], []).append((r, o))
    undecided_aux = []
    # an obligation that was discharged on the unchanged tree (it is in the
    # committed baseline) and is now `unknown`: the solver gives no
    # counter-model, so the function's concretiser searches (bounded) for a
    # failing input on the real code; without one the verdict stays UNDECIDED
    base_names = set()
    if os.path.exists(os.path.join(HERE, 'baselines', prop + '.json')):
        _bj = json.load(open(os.path.join(HERE, 'baselines', prop + '.json')))
        base_names = set(_bj['names'] if isinstance(_bj, dict) else _bj)
    searched = set()
    for r, o in unknowns:
        qn = r['qualname']
        if qn in by_func or qn in searched or (qn + '/' + o['name']) not in base_names:
            continue
        if o['name'].startswith('vacuity.'):
            continue            # a guard that could not be evaluated is undecided, never a reason to search for inputs
        searched.add(qn)
        path, reproduced = replay(prop, mod, r, o, replay_dir, search=True)
        if reproduced and reproduces_only_a_recorded_finding(qn, path, finding_lines):
            continue
        if reproduced:
            viol_lines.append('VIOLATION property=%s replay=%s obligation=%s/%s' % (prop, path, qn, o['name']))
    # a function that can no longer be analysed after a code change (a new loop without an invariant, a construct
    # outside the subset): nothing is proved about it; its replayer searches (bounded) for a failing input on the real
    # code -- found: a violation with that input; not found: the verdict stays UNDECIDED
    for r in results:
        if r.get('error') and r['error'][0] in ('unsupported',) and r['qualname'] not in by_func and \
                r['qualname'] not in searched and not only:
            if getattr(mod, 'REPLAYERS', {}).get(r['qualname'].split('@')[0]):
                searched.add(r['qualname'])
                ob = {'name': 'unanalysable.' + re.sub(r'[^A-Za-z0-9]+', '_', r['error'][1])[:60], 'path': '',
                      'backend': 'none', 'model': None, 'detail': r['error'][1]}
                path, reproduced = replay(prop, mod, r, ob, replay_dir, search=True)
                if reproduced and not reproduces_only_a_recorded_finding(r['qualname'], path, finding_lines):
                    viol_lines.append('VIOLATION property=%s replay=%s obligation=%s/%s' % (prop, path, r['qualname'], ob['name']))
    for qn, lst in by_func.items():
        tops = [(r, o) for r, o in lst if not is_aux(o['name'])]
        if tops:
            for r, o in lst:
                key = (r['qualname'], o['name'])
                if key in seen:
                    continue
                seen.add(key)
                path, reproduced = replay(prop, mod, r, o, replay_dir)
                suffix = '' if reproduced else ' no-failing-input-found'
                viol_lines.append('VIOLATION property=%s replay=%s obligation=%s/%s%s' % (
                    prop, path, r['qualname'], o['name'], suffix))
            continue
        r, o = lst[0]
        path, reproduced = replay(prop, mod, r, o, replay_dir, search=True)
        names = sorted(set(x[1]['name'] for x in lst))
        if reproduced and reproduces_only_a_recorded_finding(qn, path, finding_lines):
            reproduced = False
        if reproduced:
            viol_lines.append('VIOLATION property=%s replay=%s obligation=%s/%s' % (prop, path, qn, o['name']))
        else:
            undecided_aux.append((qn, names, path))

    # ---- thorough tier: besides the proof (with a larger solver budget), every replayer of the property is run in
    # bounded-search mode against the unchanged functions -- a dynamic cross-check of contracts and replayers: a failing
    # input found while all obligations are discharged means an assumed contract or a replayer is wrong, and is reported
    bounded_runs = []
    if tier == 'thorough' and not only:
        seen_rp = {}
        for qn, rp in sorted(getattr(mod, 'REPLAYERS', {}).items()):
            if rp in seen_rp:
                continue
            seen_rp[rp] = qn
            r0 = next((r for r in results if r['qualname'].split('@')[0] == qn), None)
            if r0 is None:
                continue
            func = dict(r0)
            ob = {'name': 'thorough.bounded_cross_check', 'path': '', 'backend': 'none', 'model': None, 'detail': ''}
            known_f = [f for f in finding_lines if f['obligation'].split('/')[0].split('@')[0] == qn]
            path, reproduced = replay(prop, mod, func, ob, replay_dir, search=True)
            bounded_runs.append({'replayer': rp, 'function': qn, 'failing_input_found': bool(reproduced), 'replay': path})
            skipped = False
            try:
                skipped = 'known findings skipped' in json.load(open(path)).get('replay_output', '')
            except Exception:
                pass
            if reproduced and (not known_f or skipped):
                viol_lines.append('VIOLATION property=%s replay=%s obligation=%s/thorough.bounded_cross_check' % (prop, path, qn))
    known_replays = {}
    for fid, (r, o) in known_first.items():
        path, reproduced = replay(prop, mod, r, o, replay_dir)
        known_replays[fid] = {'replay': path, 'reproduced_on_real_code': reproduced}
    wall = time.time() - t0
    # ---- evidence
    trusted = list(getattr(mod, 'TRUSTED', []))
    trusted += ['external (assumed contract): ' + c for c in sorted(trusted_calls)]
    trusted += ['dropped by extraction: ' + d for d in sorted(dropped)]
    trusted += ['extraction (exec template instantiated from the real source): ' + d[len('(not dead: exec template) '):]
                for d in sorted(dead) if d.startswith('(not dead: exec template) ')]
    trusted += ['dead branch (platform-resolved): ' + d for d in sorted(dead) if not d.startswith('(not dead')][:40]
    trusted += ['encoding: Python int -> SMT Int (exact); float -> SMT Real (IEEE rounding not modelled)',
                'encoding: heap as per-field arrays indexed by object id; containers as (len|has, items|val) maps',
                'encoding: built-ins and container methods per pyvc/builtins_impl.py; truthiness/and/or/None per pyvc/evalexpr.py',
                'solvers: z3 %s (API), cvc5 1.0.3 / z3 4.8.12 CLI for unknowns' % __import__('z3').get_version_string()]
    backends = {'z3-%s' % __import__('z3').get_version_string(): {
        'unsat': stats.get('z3_unsat', 0), 'sat': stats.get('z3_sat', 0), 'unknown': stats.get('z3_unknown', 0),
        'seconds': round(stats.get('z3_seconds', 0), 3)},
        'cvc5-1.0.3': {'calls': stats.get('cvc5_calls', 0), 'unsat': stats.get('cvc5_unsat', 0),
                       'sat': stats.get('cvc5_sat', 0), 'seconds': round(stats.get('cvc5_seconds', 0), 3)},
        'z3-4.8.12-cli': {'calls': stats.get('z3cli_calls', 0), 'seconds': round(stats.get('z3cli_seconds', 0), 3)}}
    evidence = {
        'property_id': prop, 'tier': tier, 'seed': seed, 'level': 'proof',
        'coverage': {
            'obligations': total - known, 'discharged': proved,
            'obligations_generated_including_known_findings': total,
            'refuted': refuted, 'refuted_known_findings': known, 'undecided': unknown,
            'checker_cmd': './check %s %s' % (prop, tier),
            'trusted_base': trusted,
            'functions_under_contract': funcs,
            'distinct_obligation_names': len(names),
            'paths_explored': sum(f['paths'] for f in funcs),
            'solver_queries': stats.get('queries', 0),
            'back_ends': backends,
            'lean_lemmas': lean_results,
            'samples': samples[:40],
            'baseline_missing_names': shrink,
            'known_findings': [dict(f, hits=len(known_hits.get(f['id'], [])), **known_replays.get(f['id'], {})) for f in finding_lines],
            'fixed': fixed_lines,
            'bounded': list(getattr(mod, 'BOUNDED', [])) + [
                'thorough tier: %s run in bounded-search mode on the real code (%s): %s' % (
                    b['replayer'], b['function'], 'failing input found' if b['failing_input_found'] else 'nothing found')
                for b in bounded_runs],
            'out_of_reach': getattr(mod, 'OUT_OF_REACH', []),
            'errors': ['%s: %s: %s' % (q, e[0], e[1][:300]) for q, e in errors],
        },
        'assumptions': list(getattr(mod, 'ASSUMPTIONS', [])) + list(getattr(mod, 'OUT_OF_REACH', [])),
        'wall_s': round(wall, 2),
        'violations': len(viol_lines),
    }
    if not os.environ.get('PYVC_NO_EVIDENCE') and not only:
        os.makedirs(os.path.join(HERE, 'evidence'), exist_ok=True)
        with open(os.path.join(HERE, 'evidence', prop + '.json'), 'w') as fh:
            json.dump(evidence, fh, indent=1, default=str)

    # ---- report
    print('%s %s: %d functions/lemmas, %d paths, %d obligations: %d proved, %d refuted, %d known-finding, %d unknown; %.1fs' % (
        prop, tier, len(funcs), sum(f['paths'] for f in funcs), total, proved, refuted, known, unknown, wall))
    for f in finding_lines:
        hits = known_hits.get(f['id'], [])
        if hits:
            print('KNOWN-FINDING: property=%s %s [%s; obligation %s]' % (prop, f['what'], f['id'], f['obligation']))
    if viol_lines:
        for v in viol_lines:
            print(v)
        return 1
    for f in finding_lines:
        if not known_hits.get(f['id']):
            print('NOTE: recorded finding %s no longer reproduces (obligation %s is discharged or gone)' % (f['id'], f['obligation']))
    hard = [e for e in errors if e[1][0] in ('internal', 'contract', 'vacuity')]
    soft = [e for e in errors if e[1][0] in ('unsupported', 'missing', 'unknown')]
    for qn, names, path in undecided_aux:
        soft.append((qn, ('undecided', 'proof steps %s no longer go through and no failing input was found (bounded search: %s)' % (names[:4], path))))
    if stats.get('disagreements', 0):
        print('CHECKER-ERROR: solver disagreement')
        return 3
    if hard:
        for q, e in hard:
            print('CHECKER-ERROR %s: %s: %s' % (q, e[0], e[1]))
        return 3
    # obligations downstream of a refuted proof step are not generated (the
    # path ends there): that is a consequence of the refutation, not shrinkage
    shrink = [x for x in shrink if x.split('/')[0] not in by_func]
    if shrink:
        print('CHECKER-ERROR: %d baseline obligations were not generated, e.g. %s' % (len(shrink), shrink[:5]))
        return 3
    if soft:
        for q, e in soft:
            print('UNDECIDED %s: %s: %s' % (q, e[0], e[1]))
        return 2
    return 0


if __name__ == '__main__':
    sys.exit(main(sys.argv))
