"""What contract files import."""
import z3
from .shapes import (IntS, RealS, BoolS, ValS, StrS, BytesS, NoneS, OptS, RefS, TupS, MapS,
                     opt, ref, tup, list_of, deque_of, dict_of, set_of, SV, SNone, SOpt,
                     SRef, STup, SMap, SBytes, SStr, fresh_name, mk_int, mk_bool, mk_real,
                     lift, Val)
from .core import (World, VExc, PyExc, Unsupported, ContractError, PathEnd, VFunc, VClass,
                   VExternal, PyList, coerce, box)
from .contracts import Contract, Lemma, prove, Forall
from .evalexpr import as_arith


def raise_exc(ex, cls, *args, **attrs):
    raise PyExc(VExc(cls, [lift(a) for a in args], {k: lift(v) for k, v in attrs.items()}))


def ghost(ex):
    return ex.lookup('g')


def gget(ex, name):
    return ex.path.read_field(ex.lookup('g'), name)


def gset(ex, name, v):
    ex.path.write_field(ex.lookup('g'), name, v)


def record(ex, name, value):
    """make the result of an external visible in counter-models (for replay)"""
    n = sum(1 for k in ex.root.inputs if k.startswith('ext:' + name))
    ex.root.inputs['ext:%s#%d' % (name, n)] = value
    return value


def call_contract(ex, qualname, args, kwargs=None):
    """apply the contract of a repo function from inside an assumed external
    (used to attach call-site obligations phrased over the caller's locals)"""
    from .contracts import apply_contract
    module, owner, node = ex.world.repo.find_function(qualname)
    fn = VFunc(qualname, node, module, owner=owner)
    callee = ex.world.contracts[qualname]
    return apply_contract(ex, callee, fn, list(args), dict(kwargs or {}))
