"""SMT back ends: z3 (Python API) first, cvc5 / system z3 CLI for unknowns.

Every query is a list of z3 BoolRefs whose conjunction is checked for
satisfiability.  `check` returns (verdict, model_or_None, info) with verdict in
{'sat', 'unsat', 'unknown'}.  Statistics are accumulated in STATS.
"""
import os
import subprocess
import tempfile
import time

import z3

STATS = {
    'queries': 0, 'z3_unsat': 0, 'z3_sat': 0, 'z3_unknown': 0,
    'cvc5_calls': 0, 'cvc5_unsat': 0, 'cvc5_sat': 0, 'cvc5_unknown': 0,
    'z3cli_calls': 0, 'z3cli_unsat': 0, 'z3cli_sat': 0,
    'z3_seconds': 0.0, 'cvc5_seconds': 0.0, 'z3cli_seconds': 0.0,
    'cross_checked': 0, 'disagreements': 0,
}

QUICK_TIMEOUT_MS = int(os.environ.get('PYVC_TIMEOUT_MS', '10000'))


def reset_stats():
    for k in STATS:
        STATS[k] = 0.0 if k.endswith('seconds') else 0


def _to_smt2(formulas, logic=None):
    s = z3.Solver()
    for f in formulas:
        s.add(f)
    txt = s.to_smt2()
    return txt


def _run_cli(cmd, text, timeout_s):
    with tempfile.NamedTemporaryFile('w', suffix='.smt2', delete=False,
                                     dir=os.environ.get('PYVC_SCRATCH')) as fh:
        fh.write(text)
        path = fh.name
    try:
        t0 = time.time()
        try:
            out = subprocess.run(cmd + [path], capture_output=True, text=True,
                                 timeout=timeout_s + 5)
            res = out.stdout.strip().splitlines()
            verdict = res[0].strip() if res else 'unknown'
        except subprocess.TimeoutExpired:
            verdict = 'unknown'
        dt = time.time() - t0
    finally:
        try:
            os.unlink(path)
        except OSError:
            pass
    if verdict not in ('sat', 'unsat'):
        verdict = 'unknown'
    return verdict, dt


def cvc5_check(formulas, timeout_ms):
    text = _to_smt2(formulas)
    text = '(set-logic ALL)\n' + text
    v, dt = _run_cli(['/usr/bin/cvc5', '--tlimit=%d' % timeout_ms, '--lang=smt2'],
                     text, timeout_ms / 1000.0)
    STATS['cvc5_calls'] += 1
    STATS['cvc5_seconds'] += dt
    STATS['cvc5_' + v] += 1
    return v


def z3cli_check(formulas, timeout_ms):
    text = _to_smt2(formulas)
    v, dt = _run_cli(['/usr/bin/z3', '-T:%d' % max(1, timeout_ms // 1000)],
                     text, timeout_ms / 1000.0)
    STATS['z3cli_calls'] += 1
    STATS['z3cli_seconds'] += dt
    if v in ('sat', 'unsat'):
        STATS['z3cli_' + v] += 1
    return v


def load_factor():
    """solver budgets are wall-clock: on a machine that is oversubscribed (other checks, test suites) the same query
    needs proportionally longer -- the budget is stretched by the load per core (1x .. 8x), so that a verdict does not
    flip to `unknown` because the cores were busy"""
    try:
        per_core = os.getloadavg()[0] / (os.cpu_count() or 1)
    except OSError:
        return 1.0
    return min(8.0, max(1.0, per_core))


def check(formulas, timeout_ms=None, want_model=False, fallback=True,
          cross=False):
    """Satisfiability of the conjunction of `formulas`."""
    timeout_ms = int((timeout_ms or QUICK_TIMEOUT_MS) * load_factor())
    if os.environ.get("PYVC_NO_FALLBACK"):
        fallback = False
    STATS['queries'] += 1
    s = z3.Solver()
    s.set('timeout', timeout_ms)
    for f in formulas:
        s.add(f)
    t0 = time.time()
    r = s.check()
    STATS['z3_seconds'] += time.time() - t0
    if r == z3.unsat:
        STATS['z3_unsat'] += 1
        if cross:
            STATS['cross_checked'] += 1
            v = cvc5_check(formulas, timeout_ms)
            if v == 'sat':
                STATS['disagreements'] += 1
                return 'disagree', None, 'z3 unsat / cvc5 sat'
        return 'unsat', None, 'z3'
    if r == z3.sat:
        STATS['z3_sat'] += 1
        if cross:
            STATS['cross_checked'] += 1
            v = cvc5_check(formulas, timeout_ms)
            if v == 'unsat':
                STATS['disagreements'] += 1
                return 'disagree', None, 'z3 sat / cvc5 unsat'
        return 'sat', (s.model() if want_model else None), 'z3'
    STATS['z3_unknown'] += 1
    if os.environ.get('PYVC_DUMP') and want_model:
        n = STATS['z3_unknown']
        with open(os.path.join(os.environ['PYVC_DUMP'], 'unknown_%d_%d.smt2' % (os.getpid(), n)), 'w') as fh:
            fh.write(_to_smt2(formulas))
    if not fallback:
        return 'unknown', None, 'z3:' + s.reason_unknown()
    v = cvc5_check(formulas, min(timeout_ms, 20000))
    if v == 'unsat':
        return 'unsat', None, 'cvc5'
    if v == 'sat':
        return 'sat', None, 'cvc5'
    if os.environ.get('PYVC_Z3CLI'):
        v = z3cli_check(formulas, timeout_ms)
        if v in ('sat', 'unsat'):
            return v, None, 'z3-4.8.12'
    return 'unknown', None, 'z3 and cvc5 unknown'
