/-
Finite-set cardinality facts that pyvc mirrors as SMT assumptions (the SMT
solvers do not do the induction).  Mirrors:
  * pyvc/builtins_impl.py set_of_list_gen:    |{f x | x in l, c x}| <= len l
  * pyvc/builtins_impl.py next_of_range_gen:  (forall k in [lo, hi), k in S)  ->  hi - lo <= |S|
Together they are the pigeonhole step of Pool._avail_index (C09).
-/
import Mathlib.Data.Finset.Card
import Mathlib.Data.List.Basic
import Mathlib.Order.Interval.Finset.Basic
import Mathlib.Data.Int.Interval
import Mathlib.Tactic.Linarith

open Finset

/-- the set built from a (filtered, mapped) list has at most len(list) elements -/
theorem card_image_le_length {α β : Type} [DecidableEq β] (l : List α) (c : α → Bool) (f : α → β) :
    ((l.filter c).map f).toFinset.card ≤ l.length := by
  calc ((l.filter c).map f).toFinset.card
      ≤ ((l.filter c).map f).length := List.toFinset_card_le _
    _ = (l.filter c).length := by simp
    _ ≤ l.length := List.length_filter_le _ _

/-- a set that contains every integer of [lo, hi) has at least hi - lo elements -/
theorem range_subset_card (S : Finset ℤ) (lo hi : ℤ) (h : ∀ k, lo ≤ k → k < hi → k ∈ S) :
    hi - lo ≤ (S.card : ℤ) := by
  have hsub : Finset.Ico lo hi ⊆ S := by
    intro k hk
    rw [Finset.mem_Ico] at hk
    exact h k hk.1 hk.2
  have hc := Finset.card_le_card hsub
  rw [Int.card_Ico] at hc
  omega

/-- the pigeonhole step itself: fewer members than slots leaves a free slot -/
theorem free_slot_exists (S : Finset ℤ) (n : ℤ) (hn : (S.card : ℤ) < n) :
    ∃ i, 0 ≤ i ∧ i < n ∧ i ∉ S := by
  by_contra hno
  have := range_subset_card S 0 n (fun k h0 h1 => by
    by_contra hk
    exact hno ⟨k, h0, h1, hk⟩)
  omega
